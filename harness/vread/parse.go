package vread

import (
	"fmt"
	"strconv"
)

// ParseError is a syntax error with a byte position in the file.
type ParseError struct {
	Pos int
	Msg string
}

func (e *ParseError) Error() string { return fmt.Sprintf("parse error at byte %d: %s", e.Pos, e.Msg) }

type assoc int

const (
	leftAssoc assoc = iota
	rightAssoc
	nonAssoc
)

type opInfo struct {
	level int
	assoc assoc
	// rightMax overrides the level allowed for the right operand (0 = derive).
	rightMax int
}

// Precedence table: Coq's standard levels and the levels of Perennial's
// goose_lang/notation.v (trusted input, see DESIGN.md §2.2). On the
// unchanged tree goose parenthesises every compound operand, so this table
// only decides cases where a printer change drops parentheses.
var infix = map[string]opInfo{
	"≪": {35, leftAssoc, 0}, "≫": {35, leftAssoc, 0},
	"`quot`": {35, leftAssoc, 0}, "`rem`": {35, leftAssoc, 0},
	"`and`": {35, leftAssoc, 0}, "`or`": {35, leftAssoc, 0}, "`xor`": {35, leftAssoc, 0},
	"*": {40, leftAssoc, 0}, "&&": {40, leftAssoc, 0},
	"+": {50, leftAssoc, 0}, "-": {50, leftAssoc, 0}, "||": {50, leftAssoc, 0},
	"::": {60, rightAssoc, 0}, "::=": {60, nonAssoc, 99},
	"=": {70, nonAssoc, 0}, "≠": {70, nonAssoc, 0}, "<": {70, nonAssoc, 0}, ">": {70, nonAssoc, 0}, "≤": {70, nonAssoc, 0}, "≥": {70, nonAssoc, 0},
	"->": {99, rightAssoc, 0},
	";;": {100, rightAssoc, 200},
}

const (
	lvlAtom  = 0
	lvlLoad  = 9
	lvlApp   = 10
	lvlNot   = 75
	lvlStore = 80
	lvlTop   = 200
)

type parser struct {
	toks []Token
	i    int
}

func (p *parser) peek() Token { return p.toks[p.i] }
func (p *parser) next() Token {
	t := p.toks[p.i]
	if p.i < len(p.toks)-1 {
		p.i++
	}
	return t
}

func (p *parser) errf(t Token, format string, a ...any) *ParseError {
	return &ParseError{Pos: t.Pos, Msg: fmt.Sprintf(format, a...) + " (at " + t.String() + ")"}
}

func (p *parser) isSym(s string) bool {
	t := p.peek()
	return t.Kind == TSym && t.Text == s
}

func (p *parser) expectSym(s string) error {
	t := p.peek()
	if t.Kind == TSym && t.Text == s {
		p.next()
		return nil
	}
	return p.errf(t, "expected '%s'", s)
}

func (p *parser) isIdent(s string) bool {
	t := p.peek()
	return t.Kind == TIdent && t.Text == s
}

// infixAt returns the infix operator starting at the current token ("" if none)
// and how many tokens it spans.
func (p *parser) infixAt() (string, int) {
	t := p.peek()
	if t.Kind != TSym {
		return "", 0
	}
	if t.Text == "`" {
		// `name`
		if p.i+2 < len(p.toks) && p.toks[p.i+1].Kind == TIdent && p.toks[p.i+2].Kind == TSym && p.toks[p.i+2].Text == "`" {
			return "`" + p.toks[p.i+1].Text + "`", 3
		}
		return "", 0
	}
	if _, ok := infix[t.Text]; ok {
		return t.Text, 1
	}
	return "", 0
}

func (p *parser) startsAtom() bool {
	t := p.peek()
	switch t.Kind {
	case TIdent:
		switch t.Text {
		case "then", "else", "in":
			return false
		}
		return true
	case TString:
		return true
	case TSym:
		switch t.Text {
		case "(", "[", "![", "#", "<>":
			return true
		}
	}
	return false
}

// parseExpr parses an expression whose Coq level is at most max and returns
// it with its level.
func (p *parser) parseExpr(max int) (Expr, int, error) {
	left, lvl, err := p.parsePrefix(max)
	if err != nil {
		return nil, 0, err
	}
	for {
		// store: e1 <-[t] e2
		if p.isSym("<-[") && lvlStore <= max && lvl < lvlStore {
			p.next()
			ty, _, err := p.parseExpr(lvlTop)
			if err != nil {
				return nil, 0, err
			}
			if err := p.expectSym("]"); err != nil {
				return nil, 0, err
			}
			val, _, err := p.parseExpr(lvlStore - 1)
			if err != nil {
				return nil, 0, err
			}
			left, lvl = Store{Dst: left, Ty: ty, Val: val}, lvlStore
			continue
		}
		if op, n := p.infixAt(); op != "" {
			info, ok := infix[op]
			if !ok {
				return nil, 0, p.errf(p.peek(), "unknown operator %s", op)
			}
			if info.level > max {
				break
			}
			leftMax := info.level
			if info.assoc != leftAssoc {
				leftMax = info.level - 1
			}
			if lvl > leftMax {
				break
			}
			for k := 0; k < n; k++ {
				p.next()
			}
			rmax := info.level - 1
			if info.assoc == rightAssoc {
				rmax = info.level
			}
			if info.rightMax != 0 {
				rmax = info.rightMax
			}
			right, _, err := p.parseExpr(rmax)
			if err != nil {
				return nil, 0, err
			}
			if op == ";;" {
				left = Seq{A: left, B: right}
			} else {
				left = Bin{Op: op, X: left, Y: right}
			}
			lvl = info.level
			continue
		}
		// application by juxtaposition
		if lvlApp <= max && lvl <= lvlApp && p.startsAtom() {
			arg, _, err := p.parseExpr(lvlLoad)
			if err != nil {
				return nil, 0, err
			}
			if app, ok := left.(App); ok && lvl == lvlApp {
				app.Args = append(app.Args, arg)
				left = app
			} else {
				left = App{Fn: left, Args: []Expr{arg}}
			}
			lvl = lvlApp
			continue
		}
		break
	}
	return left, lvl, nil
}

func (p *parser) needLevel(t Token, what string, level, max int) error {
	if level > max {
		return p.errf(t, "%s (level %d) in a position that only admits level %d: missing parentheses", what, level, max)
	}
	return nil
}

func (p *parser) parseBinder() (string, error) {
	t := p.peek()
	if t.Kind == TString {
		p.next()
		return t.Text, nil
	}
	if t.Kind == TSym && t.Text == "<>" {
		p.next()
		return "", nil
	}
	return "", p.errf(t, "expected a binder (string or <>)")
}

func (p *parser) isBinder() bool {
	t := p.peek()
	return t.Kind == TString || (t.Kind == TSym && t.Text == "<>")
}

// parsePattern parses "x" | <> | (pat, binder).
func (p *parser) parsePattern() ([]string, error) {
	if p.isSym("(") {
		p.next()
		names, err := p.parsePattern()
		if err != nil {
			return nil, err
		}
		if err := p.expectSym(","); err != nil {
			return nil, err
		}
		b, err := p.parseBinder()
		if err != nil {
			return nil, err
		}
		if err := p.expectSym(")"); err != nil {
			return nil, err
		}
		return append(names, b), nil
	}
	b, err := p.parseBinder()
	if err != nil {
		return nil, err
	}
	return []string{b}, nil
}

func (p *parser) parsePrefix(max int) (Expr, int, error) {
	t := p.peek()
	switch t.Kind {
	case TKeyword:
		if err := p.needLevel(t, t.Text, lvlTop, max); err != nil {
			return nil, 0, err
		}
		p.next()
		switch t.Text {
		case "let:":
			names, err := p.parsePattern()
			if err != nil {
				return nil, 0, err
			}
			if err := p.expectSym(":="); err != nil {
				return nil, 0, err
			}
			bound, _, err := p.parseExpr(lvlTop)
			if err != nil {
				return nil, 0, err
			}
			if !p.isIdent("in") {
				return nil, 0, p.errf(p.peek(), "expected 'in'")
			}
			p.next()
			body, _, err := p.parseExpr(lvlTop)
			if err != nil {
				return nil, 0, err
			}
			return Let{Names: names, Bound: bound, Body: body}, lvlTop, nil
		case "if:":
			c, _, err := p.parseExpr(lvlTop)
			if err != nil {
				return nil, 0, err
			}
			if !p.isIdent("then") {
				return nil, 0, p.errf(p.peek(), "expected 'then'")
			}
			p.next()
			th, _, err := p.parseExpr(lvlTop)
			if err != nil {
				return nil, 0, err
			}
			if !p.isIdent("else") {
				return nil, 0, p.errf(p.peek(), "expected 'else'")
			}
			p.next()
			el, _, err := p.parseExpr(lvlTop)
			if err != nil {
				return nil, 0, err
			}
			return If{Cond: c, Then: th, Else: el}, lvlTop, nil
		case "λ:":
			var params []string
			for p.isBinder() {
				b, _ := p.parseBinder()
				params = append(params, b)
			}
			if len(params) == 0 {
				return nil, 0, p.errf(p.peek(), "λ: without binders")
			}
			if err := p.expectSym(","); err != nil {
				return nil, 0, err
			}
			body, _, err := p.parseExpr(lvlTop)
			if err != nil {
				return nil, 0, err
			}
			return Lam{Params: params, Body: body}, lvlTop, nil
		case "rec:":
			nt := p.peek()
			if nt.Kind != TString {
				return nil, 0, p.errf(nt, "rec: without a quoted name")
			}
			p.next()
			var params []string
			for p.isBinder() {
				b, _ := p.parseBinder()
				params = append(params, b)
			}
			if len(params) == 0 {
				return nil, 0, p.errf(p.peek(), "rec: without binders")
			}
			if err := p.expectSym(":="); err != nil {
				return nil, 0, err
			}
			body, _, err := p.parseExpr(lvlTop)
			if err != nil {
				return nil, 0, err
			}
			return Rec{Name: nt.Text, Params: params, Body: body}, lvlTop, nil
		case "for:":
			c, _, err := p.parseExpr(99)
			if err != nil {
				return nil, 0, err
			}
			if err := p.expectSym(";"); err != nil {
				return nil, 0, err
			}
			post, _, err := p.parseExpr(99)
			if err != nil {
				return nil, 0, err
			}
			if err := p.expectSym(":="); err != nil {
				return nil, 0, err
			}
			body, _, err := p.parseExpr(lvlTop)
			if err != nil {
				return nil, 0, err
			}
			return For{Cond: c, Post: post, Body: body}, lvlTop, nil
		}
		return nil, 0, p.errf(t, "unknown keyword")
	case TString:
		p.next()
		return Str{S: t.Text, Pos: t.Pos, End: t.End}, lvlAtom, nil
	case TNumber:
		return nil, 0, p.errf(t, "bare number (goose writes literals with #)")
	case TIdent:
		switch t.Text {
		case "then", "else", "in":
			return nil, 0, p.errf(t, "unexpected keyword")
		}
		p.next()
		return Gid{Name: t.Text, Pos: t.Pos}, lvlAtom, nil
	case TSym:
		switch t.Text {
		case "<>":
			p.next()
			return Anon{Pos: t.Pos}, lvlAtom, nil
		case "~":
			if err := p.needLevel(t, "~", lvlNot, max); err != nil {
				return nil, 0, err
			}
			p.next()
			x, _, err := p.parseExpr(lvlNot)
			if err != nil {
				return nil, 0, err
			}
			return Not{X: x}, lvlNot, nil
		case "![":
			if err := p.needLevel(t, "![t] e", lvlLoad, max); err != nil {
				return nil, 0, err
			}
			p.next()
			ty, _, err := p.parseExpr(lvlTop)
			if err != nil {
				return nil, 0, err
			}
			if err := p.expectSym("]"); err != nil {
				return nil, 0, err
			}
			x, _, err := p.parseExpr(lvlLoad)
			if err != nil {
				return nil, 0, err
			}
			return Load{Ty: ty, X: x}, lvlLoad, nil
		case "#":
			p.next()
			return p.parseLit(t)
		case "[":
			p.next()
			var elems []Expr
			if !p.isSym("]") {
				for {
					e, _, err := p.parseExpr(99)
					if err != nil {
						return nil, 0, err
					}
					elems = append(elems, e)
					if p.isSym(";") {
						p.next()
						continue
					}
					break
				}
			}
			if err := p.expectSym("]"); err != nil {
				return nil, 0, err
			}
			return List{Elems: elems}, lvlAtom, nil
		case "(":
			p.next()
			// (fun _ => Some e)
			if p.isIdent("fun") {
				p.next()
				pt := p.next()
				if !(p.isSym("=>")) {
					return nil, 0, p.errf(p.peek(), "expected '=>'")
				}
				p.next()
				body, _, err := p.parseExpr(lvlTop)
				if err != nil {
					return nil, 0, err
				}
				if err := p.expectSym(")"); err != nil {
					return nil, 0, err
				}
				return GallinaFun{Param: pt.Text, Body: body}, lvlAtom, nil
			}
			first, _, err := p.parseExpr(lvlTop)
			if err != nil {
				return nil, 0, err
			}
			var res Expr
			if p.isSym(",") {
				elems := []Expr{first}
				for p.isSym(",") {
					p.next()
					e, _, err := p.parseExpr(lvlTop)
					if err != nil {
						return nil, 0, err
					}
					elems = append(elems, e)
				}
				res = Tuple{Elems: elems}
			} else {
				res = Paren{X: first}
			}
			if err := p.expectSym(")"); err != nil {
				return nil, 0, err
			}
			if p.isSym("%") {
				p.next()
				st := p.peek()
				if st.Kind != TIdent {
					return nil, 0, p.errf(st, "expected scope name after %%")
				}
				p.next()
				res = Scoped{X: res, Scope: st.Text}
			}
			return res, lvlAtom, nil
		}
	}
	return nil, 0, p.errf(t, "unexpected token")
}

func (p *parser) parseLit(hash Token) (Expr, int, error) {
	t := p.peek()
	if t.Pos != hash.End {
		return nil, 0, p.errf(t, "blank after #")
	}
	switch t.Kind {
	case TNumber:
		p.next()
		n, err := strconv.ParseUint(t.Text, 10, 64)
		if err != nil {
			return nil, 0, p.errf(t, "integer literal out of range")
		}
		return Lit{Kind: "u64", N: n, Pos: hash.Pos}, lvlAtom, nil
	case TIdent:
		switch t.Text {
		case "true", "false":
			p.next()
			return Lit{Kind: "bool", B: t.Text == "true", Pos: hash.Pos}, lvlAtom, nil
		case "null":
			p.next()
			return Lit{Kind: "null", Pos: hash.Pos}, lvlAtom, nil
		}
	case TSym:
		if t.Text == "(" {
			p.next()
			if p.isSym(")") {
				p.next()
				return Lit{Kind: "unit", Pos: hash.Pos}, lvlAtom, nil
			}
			k := p.peek()
			if k.Kind == TIdent && (k.Text == "U32" || k.Text == "U8") {
				p.next()
				nt := p.peek()
				if nt.Kind != TNumber {
					return nil, 0, p.errf(nt, "expected number in #(%s …)", k.Text)
				}
				p.next()
				n, err := strconv.ParseUint(nt.Text, 10, 64)
				bits := 32
				kind := "u32"
				if k.Text == "U8" {
					bits, kind = 8, "u8"
				}
				if err != nil || n >= 1<<uint(bits) {
					return nil, 0, p.errf(nt, "literal out of range for %s", k.Text)
				}
				if err := p.expectSym(")"); err != nil {
					return nil, 0, err
				}
				return Lit{Kind: kind, N: n, Pos: hash.Pos}, lvlAtom, nil
			}
			if k.Kind == TIdent && k.Text == "str" {
				p.next()
				st := p.peek()
				if st.Kind != TString || st.Pos != k.End {
					return nil, 0, p.errf(st, "expected string right after str")
				}
				p.next()
				if err := p.expectSym(")"); err != nil {
					return nil, 0, err
				}
				return Lit{Kind: "str", S: st.Text, Pos: hash.Pos}, lvlAtom, nil
			}
		}
	}
	return nil, 0, p.errf(t, "malformed # literal")
}
