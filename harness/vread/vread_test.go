package vread

import (
	"os"
	"path/filepath"
	"testing"
)

func repo() string {
	if r := os.Getenv("VERIF_REPO"); r != "" {
		return r
	}
	return "/repo"
}

// Self-test: every gold file of the repository must lex and parse.
func TestGoldFilesParse(t *testing.T) {
	files, _ := filepath.Glob(filepath.Join(repo(), "internal/examples/*/*.gold.v"))
	more, _ := filepath.Glob(filepath.Join(repo(), "testdata/*/*.gold.v"))
	files = append(files, more...)
	if len(files) < 10 {
		t.Fatalf("only %d gold files found", len(files))
	}
	for _, f := range files {
		b, err := os.ReadFile(f)
		if err != nil {
			t.Fatal(err)
		}
		pf, err := ParseFile(string(b))
		if err != nil {
			pos := 0
			if pe, ok := err.(*ParseError); ok {
				pos = pe.Pos
			}
			if le, ok := err.(*LexError); ok {
				pos = le.Pos
			}
			lo, hi := pos-80, pos+80
			if lo < 0 {
				lo = 0
			}
			if hi > len(b) {
				hi = len(b)
			}
			t.Errorf("%s: %v\n…%s…", f, err, b[lo:hi])
			continue
		}
		t.Logf("%s: %d sentences, %d defs, %d comments", filepath.Base(f), len(pf.Sentences), len(pf.Defs()), len(pf.Comments))
	}
}
