package vread

import (
	"os"
	"testing"
)

func TestSexpSample(t *testing.T) {
	b, _ := os.ReadFile(repo() + "/internal/examples/semantics/semantics.gold.v")
	f, err := ParseFile(string(b))
	if err != nil {
		t.Fatal(err)
	}
	for _, n := range []string{"findKey", "freeRange", "testClosureBasic", "unit"} {
		d := f.Def(n)
		if d == nil {
			t.Fatalf("no def %s", n)
		}
		t.Logf("%s [%s]: %s", n, d.DefKind, Sexp(d.Body))
	}
}
