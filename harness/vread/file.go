package vread

import (
	"fmt"
	"strings"
)

// Field of a struct descriptor.
type Field struct {
	Name string
	Type Expr
}

// Sentence is one vernacular sentence.
type Sentence struct {
	// Kind: Definition | Notation | Theorem | Proof | Tactic | Qed | Hint |
	// From | Section | End | Context | Coercion
	Kind string
	Name string
	// DefKind for Definition: "val" | "expr" | "ty" | "struct"
	DefKind    string
	TypeParams []string
	Body       Expr
	Fields     []Field
	// From sentences
	FromRoot   string // Perennial.goose_lang, Goose, …
	ReqPath    string // what is required
	ReqImport  bool
	Pos, End   int // byte span including the terminating '.'
	Raw        string
	TokenCount int
}

// File is a parsed .v file.
type File struct {
	Src       string
	Sentences []Sentence
	Comments  []Comment
}

// Defs returns the Definition/Notation sentences in order.
func (f *File) Defs() []*Sentence {
	var out []*Sentence
	for i := range f.Sentences {
		s := &f.Sentences[i]
		if s.Kind == "Definition" || s.Kind == "Notation" {
			out = append(out, s)
		}
	}
	return out
}

// Def returns the first definition with the given name.
func (f *File) Def(name string) *Sentence {
	for _, s := range f.Defs() {
		if s.Name == name {
			return s
		}
	}
	return nil
}

// ParseFile lexes and parses a whole emitted file. Any lexical or syntactic
// problem is returned as an error (a well-formedness failure of the output).
func ParseFile(src string) (*File, error) {
	toks, comments, err := Lex(src)
	f := &File{Src: src, Comments: comments}
	if err != nil {
		return f, err
	}
	// split into sentences
	start := 0
	for i, t := range toks {
		if t.Kind == TDot {
			sent := append([]Token(nil), toks[start:i]...)
			eof := Token{Kind: TEOF, Pos: t.Pos, End: t.Pos}
			sent = append(sent, eof)
			if len(sent) == 1 {
				return f, &ParseError{Pos: t.Pos, Msg: "empty sentence"}
			}
			s, err := parseSentence(sent)
			if err != nil {
				return f, err
			}
			s.Pos = sent[0].Pos
			s.End = t.End
			s.Raw = src[s.Pos:s.End]
			s.TokenCount = len(sent) - 1
			f.Sentences = append(f.Sentences, *s)
			start = i + 1
		}
	}
	if rest := toks[start:]; len(rest) > 1 {
		return f, &ParseError{Pos: rest[0].Pos, Msg: "text after the last sentence terminator: " + rest[0].String()}
	}
	// Section / End pairing
	var open []string
	for _, s := range f.Sentences {
		switch s.Kind {
		case "Section":
			open = append(open, s.Name)
		case "End":
			if len(open) == 0 || open[len(open)-1] != s.Name {
				return f, &ParseError{Pos: s.Pos, Msg: "End " + s.Name + " without matching Section"}
			}
			open = open[:len(open)-1]
		}
	}
	if len(open) > 0 {
		return f, &ParseError{Pos: len(src), Msg: "Section " + open[len(open)-1] + " is never closed"}
	}
	return f, nil
}

func identText(t Token) (string, bool) {
	if t.Kind == TIdent {
		return t.Text, true
	}
	return "", false
}

func parseSentence(toks []Token) (*Sentence, error) {
	p := &parser{toks: toks}
	first := p.next()
	head, ok := identText(first)
	if !ok {
		return nil, p.errf(first, "sentence does not start with a vernacular keyword")
	}
	s := &Sentence{Kind: head}
	atEnd := func() error {
		if p.peek().Kind != TEOF {
			return p.errf(p.peek(), "unexpected token before the end of the %s sentence", head)
		}
		return nil
	}
	switch head {
	case "Definition":
		nt := p.next()
		name, ok := identText(nt)
		if !ok {
			return nil, p.errf(nt, "Definition without a name")
		}
		if strings.Contains(name, ".") {
			return nil, p.errf(nt, "Definition of a qualified name")
		}
		if reservedCoq[name] {
			return nil, p.errf(nt, "Definition name %q is a reserved word of Coq or of the GooseLang notations", name)
		}
		s.Name = name
		// type parameters
		for p.isSym("(") {
			p.next()
			tp := p.next()
			tn, ok := identText(tp)
			if !ok {
				return nil, p.errf(tp, "malformed type parameter")
			}
			if err := p.expectSym(":"); err != nil {
				return nil, err
			}
			if !p.isIdent("ty") {
				return nil, p.errf(p.peek(), "type parameter must have type ty")
			}
			p.next()
			if err := p.expectSym(")"); err != nil {
				return nil, err
			}
			s.TypeParams = append(s.TypeParams, tn)
		}
		if p.isSym(":=") {
			p.next()
			if !p.isIdent("struct.decl") {
				return nil, p.errf(p.peek(), "untyped Definition that is not a struct.decl")
			}
			p.next()
			s.DefKind = "struct"
			body, _, err := p.parseExpr(lvlLoad)
			if err != nil {
				return nil, err
			}
			lst, ok := body.(List)
			if !ok {
				return nil, p.errf(p.peek(), "struct.decl without a field list")
			}
			for _, el := range lst.Elems {
				b, ok := el.(Bin)
				if !ok || b.Op != "::" {
					return nil, &ParseError{Pos: toks[0].Pos, Msg: "struct.decl " + name + ": field is not of the form \"name\" :: type"}
				}
				fs, ok := b.X.(Str)
				if !ok {
					return nil, &ParseError{Pos: toks[0].Pos, Msg: "struct.decl " + name + ": field name is not a string"}
				}
				s.Fields = append(s.Fields, Field{Name: fs.S, Type: b.Y})
			}
			s.Body = body
			return s, atEnd()
		}
		if err := p.expectSym(":"); err != nil {
			return nil, err
		}
		kt := p.next()
		kind, ok := identText(kt)
		if !ok || (kind != "val" && kind != "expr" && kind != "ty") {
			return nil, p.errf(kt, "Definition of unexpected type")
		}
		s.DefKind = kind
		if err := p.expectSym(":="); err != nil {
			return nil, err
		}
		body, _, err := p.parseExpr(lvlTop)
		if err != nil {
			return nil, err
		}
		s.Body = body
		return s, atEnd()
	case "Notation":
		nt := p.next()
		name, ok := identText(nt)
		if !ok {
			return nil, p.errf(nt, "Notation without a name")
		}
		if reservedCoq[name] {
			return nil, p.errf(nt, "Notation name %q is a reserved word", name)
		}
		s.Name = name
		s.DefKind = "ty"
		if err := p.expectSym(":="); err != nil {
			return nil, err
		}
		// cut the trailing "(only parsing)"
		n := len(p.toks)
		if n < 6 || !(p.toks[n-5].Text == "(" && p.toks[n-4].Text == "only" && p.toks[n-3].Text == "parsing" && p.toks[n-2].Text == ")") {
			return nil, p.errf(p.toks[n-1], "Notation without (only parsing)")
		}
		eof := p.toks[n-1]
		p.toks = append(append([]Token(nil), p.toks[:n-5]...), eof)
		body, _, err := p.parseExpr(lvlTop)
		if err != nil {
			return nil, err
		}
		s.Body = body
		return s, atEnd()
	case "Theorem":
		nt := p.next()
		name, ok := identText(nt)
		if !ok {
			return nil, p.errf(nt, "Theorem without a name")
		}
		s.Name = name
		if err := checkBalanced(toks); err != nil {
			return nil, err
		}
		return s, parseLemma(p, name)
	case "Proof", "Qed":
		return s, atEnd()
	case "typecheck":
		s.Kind = "Tactic"
		return s, atEnd()
	case "Hint":
		return s, checkBalanced(toks)
	case "Section", "End":
		nt := p.next()
		name, ok := identText(nt)
		if !ok {
			return nil, p.errf(nt, "%s without a name", head)
		}
		s.Name = name
		return s, atEnd()
	case "Context":
		return s, checkBalanced(toks)
	case "Local":
		s.Kind = "Coercion"
		return s, checkBalanced(toks)
	case "From":
		rt := p.next()
		root, ok := identText(rt)
		if !ok {
			return nil, p.errf(rt, "From without a logical root")
		}
		s.FromRoot = root
		if !p.isIdent("Require") {
			return nil, p.errf(p.peek(), "expected Require")
		}
		p.next()
		if p.isIdent("Import") {
			p.next()
			s.ReqImport = true
		}
		pt := p.next()
		path, ok := identText(pt)
		if !ok {
			return nil, p.errf(pt, "Require without a module path")
		}
		s.ReqPath = path
		return s, atEnd()
	}
	return nil, p.errf(first, "unknown vernacular %q", head)
}

func checkBalanced(toks []Token) error {
	var stack []string
	closer := map[string]string{"(": ")", "[": "]", "{": "}"}
	for _, t := range toks {
		if t.Kind != TSym {
			continue
		}
		switch t.Text {
		case "(", "[", "{":
			stack = append(stack, closer[t.Text])
		case "![", "<-[":
			stack = append(stack, "]")
		case ")", "]", "}":
			if len(stack) == 0 || stack[len(stack)-1] != t.Text {
				return &ParseError{Pos: t.Pos, Msg: fmt.Sprintf("unbalanced %q", t.Text)}
			}
			stack = stack[:len(stack)-1]
		}
	}
	if len(stack) > 0 {
		return &ParseError{Pos: toks[len(toks)-1].Pos, Msg: "unclosed delimiter, expected " + stack[len(stack)-1]}
	}
	return nil
}

// reservedCoq lists Coq keywords and the GooseLang notation keywords that
// cannot be used as a definition name.
var reservedCoq = map[string]bool{
	"Axiom": true, "CoFixpoint": true, "Definition": true, "Fixpoint": true, "Hypothesis": true, "IF": true, "Parameter": true,
	"Prop": true, "SProp": true, "Set": true, "Theorem": true, "Type": true, "Variable": true, "as": true, "at": true, "by": true,
	"cofix": true, "discriminated": true, "else": true, "end": true, "exists": true, "exists2": true, "fix": true, "for": true,
	"forall": true, "fun": true, "if": true, "in": true, "lazymatch": true, "let": true, "match": true, "multimatch": true,
	"return": true, "then": true, "using": true, "where": true, "with": true, "λ": true, "mod": true,
}

// parseLemma checks the statement of a typing lemma as goose emits it under
// -typecheck:
//
//	Theorem f_t: ⊢ f : T.          (functions)
//	Theorem c_t Γ : Γ ⊢ c : T.     (constants)
//
// with T a GooseLang type: applications of type constructors to types, `*`
// for products, `->` for arrows, parentheses, and the scope annotation %ht
// right after a closing parenthesis. Anything else (a stray %, an operator, a
// string, a number) is not a type Coq would accept here.
func parseLemma(p *parser, name string) error {
	if !strings.HasSuffix(name, "_t") {
		return p.errf(p.peek(), "typing lemma %q is not named after a definition (<name>_t)", name)
	}
	subject := strings.TrimSuffix(name, "_t")
	ctx := false
	if p.isIdent("Γ") {
		p.next()
		ctx = true
	}
	if err := p.expectSym(":"); err != nil {
		return err
	}
	if ctx {
		if !p.isIdent("Γ") {
			return p.errf(p.peek(), "typing lemma with a context binder must start with Γ")
		}
		p.next()
	}
	if err := p.expectSym("⊢"); err != nil {
		return err
	}
	st := p.next()
	if n, ok := identText(st); !ok || n != subject {
		return p.errf(st, "typing lemma %s is about %s", name, st.String())
	}
	if err := p.expectSym(":"); err != nil {
		return err
	}
	if err := p.lemmaArrow(); err != nil {
		return err
	}
	if p.peek().Kind != TEOF {
		return p.errf(p.peek(), "unexpected token in the type of typing lemma %s", name)
	}
	return nil
}

func (p *parser) lemmaArrow() error {
	for {
		if err := p.lemmaProd(); err != nil {
			return err
		}
		if !p.isSym("->") {
			return nil
		}
		p.next()
	}
}

func (p *parser) lemmaProd() error {
	for {
		if err := p.lemmaApp(); err != nil {
			return err
		}
		if !p.isSym("*") {
			return nil
		}
		p.next()
	}
}

func (p *parser) lemmaApp() error {
	n := 0
	for {
		t := p.peek()
		switch {
		case t.Kind == TIdent:
			if reservedCoq[t.Text] {
				return p.errf(t, "reserved word in a type")
			}
			p.next()
		case t.Kind == TSym && t.Text == "(":
			p.next()
			if err := p.lemmaArrow(); err != nil {
				return err
			}
			if err := p.expectSym(")"); err != nil {
				return err
			}
			if p.isSym("%") {
				p.next()
				sc := p.next()
				if txt, ok := identText(sc); !ok || txt != "ht" {
					return p.errf(sc, "scope annotation other than %%ht in a type")
				}
			}
		default:
			if n == 0 {
				return p.errf(t, "expected a type")
			}
			return nil
		}
		n++
	}
}
