package vread

import (
	"fmt"
	"strings"
)

// Expr is a GooseLang/Gallina expression as written by goose.
type Expr interface{ exprNode() }

type (
	// Str is a string in expression position: a GooseLang variable (through
	// the Var coercion) or a Gallina string argument (field names).
	Str struct {
		S        string
		Pos, End int
	}
	// Gid is a Gallina identifier (possibly qualified): a library function,
	// another definition, a type, Skip/Continue/Break.
	Gid struct {
		Name string
		Pos  int
	}
	// Lit is a #-literal.
	Lit struct {
		Kind string // "u64" "u32" "u8" "bool" "unit" "null" "str"
		N    uint64
		B    bool
		S    string
		Pos  int
	}
	// Anon is the anonymous binder <> in expression/argument position.
	Anon struct{ Pos int }
	// App is application f a1 … an (n ≥ 1).
	App struct {
		Fn   Expr
		Args []Expr
	}
	// Bin is a binary operator (also used for type operators * and ->).
	Bin struct {
		Op   string
		X, Y Expr
	}
	// Not is ~ e.
	Not struct{ X Expr }
	// Load is ![t] e.
	Load struct{ Ty, X Expr }
	// Store is e1 <-[t] e2.
	Store struct{ Dst, Ty, Val Expr }
	// Let is let: pat := bound in body. Names has one entry per binder
	// ("" for <>); len>1 means a left-nested tuple pattern.
	Let struct {
		Names []string
		Bound Expr
		Body  Expr
	}
	// Seq is e1 ;; e2.
	Seq struct{ A, B Expr }
	// If is if: c then t else e.
	If struct{ Cond, Then, Else Expr }
	// Lam is λ: x y, body ("" = <>).
	Lam struct {
		Params []string
		Body   Expr
	}
	// Rec is rec: "f" x y := body.
	Rec struct {
		Name   string
		Params []string
		Body   Expr
	}
	// Tuple is (e1, e2, …), left-nested pairs in GooseLang.
	Tuple struct{ Elems []Expr }
	// For is for: cond ; post := body.
	For struct{ Cond, Post, Body Expr }
	// List is [ e1 ; e2 ; … ].
	List struct{ Elems []Expr }
	// Scoped is (e)%scope.
	Scoped struct {
		X     Expr
		Scope string
	}
	// GallinaFun is (fun _ => e), emitted only for HashTableInsert.
	GallinaFun struct {
		Param string
		Body  Expr
	}
	// Paren records explicit parentheses (kept so that printers and
	// skeleton comparison can see them; semantically transparent).
	Paren struct{ X Expr }
)

func (Str) exprNode()        {}
func (Gid) exprNode()        {}
func (Lit) exprNode()        {}
func (Anon) exprNode()       {}
func (App) exprNode()        {}
func (Bin) exprNode()        {}
func (Not) exprNode()        {}
func (Load) exprNode()       {}
func (Store) exprNode()      {}
func (Let) exprNode()        {}
func (Seq) exprNode()        {}
func (If) exprNode()         {}
func (Lam) exprNode()        {}
func (Rec) exprNode()        {}
func (Tuple) exprNode()      {}
func (For) exprNode()        {}
func (List) exprNode()       {}
func (Scoped) exprNode()     {}
func (GallinaFun) exprNode() {}
func (Paren) exprNode()      {}

// Strip removes Paren wrappers at the top of e.
func Strip(e Expr) Expr {
	for {
		p, ok := e.(Paren)
		if !ok {
			return e
		}
		e = p.X
	}
}

// Sexp renders an expression as an S-expression (parentheses of the source
// are dropped: only the parsed nesting is shown).
func Sexp(e Expr) string {
	var sb strings.Builder
	sexp(&sb, e)
	return sb.String()
}

func binder(s string) string {
	if s == "" {
		return "<>"
	}
	return fmt.Sprintf("%q", s)
}

func sexp(sb *strings.Builder, e Expr) {
	switch e := e.(type) {
	case nil:
		sb.WriteString("<nil>")
	case Paren:
		sexp(sb, e.X)
	case Str:
		fmt.Fprintf(sb, "%q", e.S)
	case Gid:
		sb.WriteString(e.Name)
	case Anon:
		sb.WriteString("<>")
	case Lit:
		switch e.Kind {
		case "u64":
			fmt.Fprintf(sb, "#%d", e.N)
		case "u32":
			fmt.Fprintf(sb, "#(U32 %d)", e.N)
		case "u8":
			fmt.Fprintf(sb, "#(U8 %d)", e.N)
		case "bool":
			fmt.Fprintf(sb, "#%v", e.B)
		case "unit":
			sb.WriteString("#()")
		case "null":
			sb.WriteString("#null")
		case "str":
			fmt.Fprintf(sb, "#(str%q)", e.S)
		}
	case App:
		sb.WriteString("(app ")
		sexp(sb, e.Fn)
		for _, a := range e.Args {
			sb.WriteByte(' ')
			sexp(sb, a)
		}
		sb.WriteByte(')')
	case Bin:
		fmt.Fprintf(sb, "(%s ", e.Op)
		sexp(sb, e.X)
		sb.WriteByte(' ')
		sexp(sb, e.Y)
		sb.WriteByte(')')
	case Not:
		sb.WriteString("(~ ")
		sexp(sb, e.X)
		sb.WriteByte(')')
	case Load:
		sb.WriteString("(load ")
		sexp(sb, e.Ty)
		sb.WriteByte(' ')
		sexp(sb, e.X)
		sb.WriteByte(')')
	case Store:
		sb.WriteString("(store ")
		sexp(sb, e.Ty)
		sb.WriteByte(' ')
		sexp(sb, e.Dst)
		sb.WriteByte(' ')
		sexp(sb, e.Val)
		sb.WriteByte(')')
	case Let:
		sb.WriteString("(let (")
		for i, n := range e.Names {
			if i > 0 {
				sb.WriteByte(' ')
			}
			sb.WriteString(binder(n))
		}
		sb.WriteString(") ")
		sexp(sb, e.Bound)
		sb.WriteByte(' ')
		sexp(sb, e.Body)
		sb.WriteByte(')')
	case Seq:
		sb.WriteString("(seq ")
		sexp(sb, e.A)
		sb.WriteByte(' ')
		sexp(sb, e.B)
		sb.WriteByte(')')
	case If:
		sb.WriteString("(if ")
		sexp(sb, e.Cond)
		sb.WriteByte(' ')
		sexp(sb, e.Then)
		sb.WriteByte(' ')
		sexp(sb, e.Else)
		sb.WriteByte(')')
	case Lam:
		sb.WriteString("(lam (")
		for i, n := range e.Params {
			if i > 0 {
				sb.WriteByte(' ')
			}
			sb.WriteString(binder(n))
		}
		sb.WriteString(") ")
		sexp(sb, e.Body)
		sb.WriteByte(')')
	case Rec:
		fmt.Fprintf(sb, "(rec %q (", e.Name)
		for i, n := range e.Params {
			if i > 0 {
				sb.WriteByte(' ')
			}
			sb.WriteString(binder(n))
		}
		sb.WriteString(") ")
		sexp(sb, e.Body)
		sb.WriteByte(')')
	case Tuple:
		sb.WriteString("(tuple")
		for _, x := range e.Elems {
			sb.WriteByte(' ')
			sexp(sb, x)
		}
		sb.WriteByte(')')
	case For:
		sb.WriteString("(for ")
		sexp(sb, e.Cond)
		sb.WriteByte(' ')
		sexp(sb, e.Post)
		sb.WriteByte(' ')
		sexp(sb, e.Body)
		sb.WriteByte(')')
	case List:
		sb.WriteString("(list")
		for _, x := range e.Elems {
			sb.WriteByte(' ')
			sexp(sb, x)
		}
		sb.WriteByte(')')
	case Scoped:
		sb.WriteString("(scope " + e.Scope + " ")
		sexp(sb, e.X)
		sb.WriteByte(')')
	case GallinaFun:
		sb.WriteString("(fun " + e.Param + " ")
		sexp(sb, e.Body)
		sb.WriteByte(')')
	default:
		fmt.Fprintf(sb, "<?%T>", e)
	}
}

// Walk calls f on e and all sub-expressions (pre-order); f returning false
// prunes the subtree.
func Walk(e Expr, f func(Expr) bool) {
	if e == nil || !f(e) {
		return
	}
	switch e := e.(type) {
	case Paren:
		Walk(e.X, f)
	case App:
		Walk(e.Fn, f)
		for _, a := range e.Args {
			Walk(a, f)
		}
	case Bin:
		Walk(e.X, f)
		Walk(e.Y, f)
	case Not:
		Walk(e.X, f)
	case Load:
		Walk(e.Ty, f)
		Walk(e.X, f)
	case Store:
		Walk(e.Dst, f)
		Walk(e.Ty, f)
		Walk(e.Val, f)
	case Let:
		Walk(e.Bound, f)
		Walk(e.Body, f)
	case Seq:
		Walk(e.A, f)
		Walk(e.B, f)
	case If:
		Walk(e.Cond, f)
		Walk(e.Then, f)
		Walk(e.Else, f)
	case Lam:
		Walk(e.Body, f)
	case Rec:
		Walk(e.Body, f)
	case Tuple:
		for _, x := range e.Elems {
			Walk(x, f)
		}
	case For:
		Walk(e.Cond, f)
		Walk(e.Post, f)
		Walk(e.Body, f)
	case List:
		for _, x := range e.Elems {
			Walk(x, f)
		}
	case Scoped:
		Walk(e.X, f)
	case GallinaFun:
		Walk(e.Body, f)
	}
}
