// Package vread (engine E2) is a reader for the Coq/GooseLang text that goose
// emits. The lexer follows Coq's lexical rules for the constructs goose can
// produce: nested comments, string literals *inside comments* (an unpaired
// quote in a comment swallows the rest of the file, and a "*)" inside such a
// string does not close the comment), strings with "" as the only escape,
// identifiers with dots (qualified names), the sentence terminator
// (a '.' followed by blank or end of file) and the GooseLang notation tokens.
package vread

import (
	"fmt"
	"strings"
	"unicode"
	"unicode/utf8"
)

// Kind of a token.
type Kind int

const (
	TEOF     Kind = iota
	TIdent        // x, struct.t, Var', λ
	TKeyword      // let: rec: if: for: λ: (notation keywords ending in ':')
	TString       // "…" (value has "" unescaped)
	TNumber       // 123
	TSym          // punctuation / operators
	TDot          // sentence terminator
	TComment      // only produced when KeepComments
)

// Token is one lexical token.
type Token struct {
	Kind Kind
	Text string // identifier / symbol text, string value, number text
	Pos  int    // byte offset
	End  int
}

func (t Token) String() string {
	switch t.Kind {
	case TEOF:
		return "<eof>"
	case TString:
		return fmt.Sprintf("%q", t.Text)
	case TDot:
		return "'.'"
	}
	return "'" + t.Text + "'"
}

// LexError is a lexical error with a byte position.
type LexError struct {
	Pos int
	Msg string
}

func (e *LexError) Error() string { return fmt.Sprintf("lex error at byte %d: %s", e.Pos, e.Msg) }

// Comment is a top-level (outside any string) comment with its byte span.
type Comment struct {
	Pos, End int
	Text     string
}

var notationKeywords = map[string]bool{"let": true, "rec": true, "if": true, "for": true, "λ": true}

// multi-character symbols, longest first
var symbols = []string{
	"<-[", "::=", ";;", ":=", "::", "![", "<>", "&&", "||", "->", "=>",
	"≠", "≤", "≥", "≪", "≫", "⊢",
	"(", ")", "[", "]", "{", "}", ";", ",", "+", "-", "*", "=", "<", ">", "~", "#", "%", ":", "`", "!", "|", "&", "/", "@", "^", "?", "$", "\\",
}

func isIdentStart(r rune) bool {
	return r == '_' || unicode.IsLetter(r)
}

func isIdentPart(r rune) bool {
	return r == '_' || r == '\'' || unicode.IsLetter(r) || unicode.IsDigit(r)
}

// Lex tokenises src. Comments are returned separately.
func Lex(src string) ([]Token, []Comment, error) {
	var toks []Token
	var comments []Comment
	i := 0
	n := len(src)
	for i < n {
		c := src[i]
		// whitespace
		if c == ' ' || c == '\t' || c == '\n' || c == '\r' {
			i++
			continue
		}
		// comment
		if c == '(' && i+1 < n && src[i+1] == '*' {
			start := i
			end, err := skipComment(src, i)
			if err != nil {
				return toks, comments, err
			}
			comments = append(comments, Comment{Pos: start, End: end, Text: src[start:end]})
			i = end
			continue
		}
		// string
		if c == '"' {
			val, end, err := lexString(src, i)
			if err != nil {
				return toks, comments, err
			}
			toks = append(toks, Token{Kind: TString, Text: val, Pos: i, End: end})
			i = end
			continue
		}
		// number
		if c >= '0' && c <= '9' {
			j := i
			for j < n && (src[j] >= '0' && src[j] <= '9') {
				j++
			}
			// a number directly followed by identifier characters is not something goose emits
			if j < n {
				r, _ := utf8.DecodeRuneInString(src[j:])
				if isIdentStart(r) {
					return toks, comments, &LexError{i, "number immediately followed by a letter"}
				}
			}
			toks = append(toks, Token{Kind: TNumber, Text: src[i:j], Pos: i, End: j})
			i = j
			continue
		}
		r, sz := utf8.DecodeRuneInString(src[i:])
		if r == utf8.RuneError && sz == 1 {
			return toks, comments, &LexError{i, "invalid UTF-8"}
		}
		// identifier (possibly qualified)
		if isIdentStart(r) {
			j := i
			for {
				// one component
				for j < n {
					r2, s2 := utf8.DecodeRuneInString(src[j:])
					if !isIdentPart(r2) {
						break
					}
					j += s2
				}
				// qualified continuation: '.' immediately followed by an identifier start
				if j+1 < n && src[j] == '.' {
					r2, _ := utf8.DecodeRuneInString(src[j+1:])
					if isIdentStart(r2) {
						j++
						continue
					}
				}
				break
			}
			text := src[i:j]
			if j < n && src[j] == ':' && notationKeywords[text] && !(j+1 < n && src[j+1] == '=') {
				toks = append(toks, Token{Kind: TKeyword, Text: text + ":", Pos: i, End: j + 1})
				i = j + 1
				continue
			}
			toks = append(toks, Token{Kind: TIdent, Text: text, Pos: i, End: j})
			i = j
			continue
		}
		// sentence terminator
		if c == '.' {
			if i+1 >= n || src[i+1] == ' ' || src[i+1] == '\n' || src[i+1] == '\t' || src[i+1] == '\r' {
				toks = append(toks, Token{Kind: TDot, Text: ".", Pos: i, End: i + 1})
				i++
				continue
			}
			if i+1 < n && src[i+1] == '.' {
				return toks, comments, &LexError{i, "'..' is not something goose emits"}
			}
			return toks, comments, &LexError{i, "'.' not followed by blank (neither qualified name nor sentence end)"}
		}
		// symbols
		matched := false
		for _, s := range symbols {
			if strings.HasPrefix(src[i:], s) {
				toks = append(toks, Token{Kind: TSym, Text: s, Pos: i, End: i + len(s)})
				i += len(s)
				matched = true
				break
			}
		}
		if matched {
			continue
		}
		return toks, comments, &LexError{i, fmt.Sprintf("unexpected character %q", r)}
	}
	toks = append(toks, Token{Kind: TEOF, Pos: n, End: n})
	return toks, comments, nil
}

// skipComment returns the offset just after the comment starting at i,
// following Coq: comments nest, and string literals inside comments are lexed
// as strings.
func skipComment(src string, i int) (int, error) {
	start := i
	depth := 0
	n := len(src)
	for i < n {
		switch {
		case src[i] == '(' && i+1 < n && src[i+1] == '*':
			depth++
			i += 2
		case src[i] == '*' && i+1 < n && src[i+1] == ')':
			depth--
			i += 2
			if depth == 0 {
				return i, nil
			}
		case src[i] == '"':
			_, end, err := lexString(src, i)
			if err != nil {
				return 0, &LexError{i, "unterminated string inside comment starting at byte " + fmt.Sprint(start)}
			}
			i = end
		default:
			i++
		}
	}
	return 0, &LexError{start, "unterminated comment"}
}

// lexString lexes a Coq string starting at the opening quote.
func lexString(src string, i int) (val string, end int, err error) {
	start := i
	i++
	var sb strings.Builder
	n := len(src)
	for i < n {
		if src[i] == '"' {
			if i+1 < n && src[i+1] == '"' {
				sb.WriteByte('"')
				i += 2
				continue
			}
			return sb.String(), i + 1, nil
		}
		sb.WriteByte(src[i])
		i++
	}
	return "", 0, &LexError{start, "unterminated string"}
}
